package main

import (
	"go/ast"
	"go/types"
	"strings"

	"golang.org/x/tools/go/ssa"
)

// C11 Runtime packages match the Go functions they wrap.

func init() {
	register(&propertyCheck{
		id: "C11", level: "other", needs: loadNeeds{ssa: true},
		decides: "for native pass-through functions only (data.Function literals with IsNative: true and a Go function as Value), that the declared Ego signature is one the marshaller can map onto the wrapped Go function: the number of parameters and the variadic flag agree with the Go signature, every declared parameter and return type whose Go counterpart is known (bool, byte, the integer and float types, string, error, interface{}, and arrays of those) is the Go function's type at that position, and the number of declared returns is the number of Go results.",
		misses:  "everything about values: the results of wrappers written in Go around the library function, documented round trips, sort stability, fmt verbs; declared types the table does not map (package types, pointers, maps) are listed as info.",
		run:     runC11,
	})
}

// data.<X>Type -> Go type string
var c11TypeMap = map[string]string{
	"BoolType": "bool", "ByteType": "uint8", "Int8Type": "int8", "Int16Type": "int16", "UInt16Type": "uint16", "Int32Type": "int32", "UInt32Type": "uint32",
	"IntType": "int", "UIntType": "uint", "Int64Type": "int64", "UInt64Type": "uint64", "Float32Type": "float32", "Float64Type": "float64",
	"Complex64Type": "complex64", "Complex128Type": "complex128", "StringType": "string", "ErrorType": "error", "InterfaceType": "any",
}

// c11DeclType renders the Go type a declaration type expression stands for ("" = not mapped).
func c11DeclType(e ast.Expr) string {
	switch x := e.(type) {
	case *ast.SelectorExpr:
		return c11TypeMap[x.Sel.Name]
	case *ast.Ident:
		return c11TypeMap[x.Name]
	case *ast.CallExpr:
		name := ""

		switch f := x.Fun.(type) {
		case *ast.SelectorExpr:
			name = f.Sel.Name
		case *ast.Ident:
			name = f.Name
		}

		if name == "ArrayType" && len(x.Args) == 1 {
			if el := c11DeclType(x.Args[0]); el != "" {
				return "[]" + el
			}
		}
	}

	return ""
}

func c11GoType(t types.Type) string {
	s := types.TypeString(t, func(p *types.Package) string { return p.Name() })
	s = strings.ReplaceAll(s, "interface{}", "any")
	s = strings.ReplaceAll(s, "byte", "uint8")
	s = strings.ReplaceAll(s, "rune", "int32")

	return s
}

func runC11(w *World, r *Report) {
	r.Rule("R-C11-1", "native declaration / Go signature agreement: parameter count, variadic flag, mapped parameter and return types, return count", 100)

	nLit := 0

	for _, p := range w.pkgsUnder("internal/runtime") {
		info := p.TypesInfo

		for _, file := range p.Syntax {
			ast.Inspect(file, func(n ast.Node) bool {
				cl, ok := n.(*ast.CompositeLit)
				if !ok {
					return true
				}

				tv, ok := info.Types[cl]
				if !ok {
					return true
				}

				nt := namedOf(tv.Type)
				if nt == nil || nt.Obj().Name() != "Function" || nt.Obj().Pkg() == nil || !strings.HasSuffix(nt.Obj().Pkg().Path(), "/internal/language/data") {
					return true
				}

				var (
					native bool
					value  ast.Expr
					decl   *ast.CompositeLit
				)

				for _, el := range cl.Elts {
					kv, ok := el.(*ast.KeyValueExpr)
					if !ok {
						continue
					}

					k, _ := kv.Key.(*ast.Ident)
					if k == nil {
						continue
					}

					switch k.Name {
					case "IsNative":
						if id, ok := kv.Value.(*ast.Ident); ok && id.Name == "true" {
							native = true
						}
					case "Value":
						value = kv.Value
					case "Declaration":
						if u, ok := kv.Value.(*ast.UnaryExpr); ok {
							decl, _ = u.X.(*ast.CompositeLit)
						}
					}
				}

				if !native || value == nil || decl == nil {
					return true
				}

				vt, ok := info.Types[value]
				if !ok {
					return true
				}

				sig, ok := vt.Type.Underlying().(*types.Signature)
				if !ok {
					return true
				}

				nLit++

				name := p.Name + "." + types.ExprString(value)

				c11Compare(w, r, name, cl, decl, sig)

				return true
			})
		}
	}

	// methods of native types: DefineNativeFunction(name, &Declaration{…}, nil) on a type whose SetNew builds the Go value
	nMeth := 0

	for _, p := range w.pkgsUnder("internal/runtime") {
		info := p.TypesInfo

		for _, file := range p.Syntax {
			ast.Inspect(file, func(n ast.Node) bool {
				call, ok := n.(*ast.CallExpr)
				if !ok {
					return true
				}

				se, ok := call.Fun.(*ast.SelectorExpr)
				if !ok || (se.Sel.Name != "DefineNativeFunction" && se.Sel.Name != "DefineNativeSandboxedFunction") || len(call.Args) < 2 {
					return true
				}

				mname := ""
				if tv, ok := info.Types[call.Args[0]]; ok && tv.Value != nil {
					mname = strings.Trim(tv.Value.ExactString(), `"`)
				}

				var decl *ast.CompositeLit
				if u, ok := call.Args[1].(*ast.UnaryExpr); ok {
					decl, _ = u.X.(*ast.CompositeLit)
				}

				if mname == "" || decl == nil {
					return true
				}

				// down the builder chain to SetNew(func() any { return &T{} })
				var native types.Type

				for x := se.X; x != nil; {
					c2, ok := x.(*ast.CallExpr)
					if !ok {
						break
					}

					s2, ok := c2.Fun.(*ast.SelectorExpr)
					if !ok {
						break
					}

					if s2.Sel.Name == "SetNew" && len(c2.Args) == 1 {
						if fl, ok := c2.Args[0].(*ast.FuncLit); ok {
							ast.Inspect(fl.Body, func(y ast.Node) bool {
								if ret, ok := y.(*ast.ReturnStmt); ok && len(ret.Results) == 1 {
									if tv, ok := info.Types[ret.Results[0]]; ok {
										native = tv.Type
									}
								}

								return true
							})
						}
					}

					x = s2.X
				}

				if native == nil {
					return true
				}

				sel := types.NewMethodSet(native).Lookup(nil, mname)
				if sel == nil {
					nMeth++
					r.Violate("R-C11-1", p.Name+"."+types.TypeString(native, func(*types.Package) string { return "" })+"."+mname+"|declaration matches the Go signature", w.pos(call.Pos()), "the native type has no exported method "+mname+": calling it fails at run time")

					return true
				}

				sig, ok := sel.Type().(*types.Signature)
				if !ok {
					return true
				}

				nMeth++

				name := p.Name + "." + strings.TrimPrefix(types.TypeString(native, func(pk *types.Package) string { return pk.Name() }), "*") + "." + mname
				c11Compare(w, r, name, se.Sel, decl, sig)

				return true
			})
		}
	}

	r.Unit("native_function_literals", nLit)
	r.Unit("native_methods", nMeth)

	// ---- R-C11-2: what the Go function returned is what the Ego caller gets
	r.Rule("R-C11-2", "result pass-through: every element of the result list CallDirect hands back is the Interface() of a value the reflective call returned (also on the path where the Go function returned an error)", 2)

	bp := w.pkg("internal/language/bytecode")
	if bp == nil {
		r.Anchor("R-C11-2", "package language/bytecode")

		return
	}

	cd := w.ssaFunc(bp, "CallDirect")
	if cd == nil {
		r.Anchor("R-C11-2", "bytecode.CallDirect")

		return
	}

	// Interface() of an element of the slice the reflective call returned — not of a value made up here
	fromResults := func(v ssa.Value) bool {
		return derivesFrom(v, func(s ssa.Value) bool {
			c, ok := s.(*ssa.Call)
			if !ok || callID(c.Common()) != "reflect.Value.Interface" {
				return false
			}

			made := derivesFrom(c.Call.Args[0], func(x ssa.Value) bool {
				mc, ok := x.(*ssa.Call)
				if !ok {
					return false
				}

				switch callID(mc.Common()) {
				case "reflect.Zero", "reflect.New", "reflect.ValueOf", "reflect.MakeSlice", "reflect.Indirect":
					return true
				}

				return false
			}, nil)

			return !made
		}, nil)
	}

	n := 0

	allInstrs(cd, func(in ssa.Instruction) {
		c := callTo(in, "internal/language/data.NewList")
		if c == nil || len(c.Args) == 0 {
			return
		}

		// elements of the variadic argument
		var elems []ssa.Value

		if sl, ok := c.Args[0].(*ssa.Slice); ok {
			if al, ok := sl.X.(*ssa.Alloc); ok {
				for _, ref := range *al.Referrers() {
					if ia, ok := ref.(*ssa.IndexAddr); ok {
						for _, r2 := range *ia.Referrers() {
							if st, ok := r2.(*ssa.Store); ok {
								elems = append(elems, st.Val)
							}
						}
					}
				}
			}
		}

		if len(elems) == 0 {
			// a slice built elsewhere (interfaces[i] = result.Interface()): judged by its stores
			if u := c.Args[0]; u != nil {
				allInstrs(cd, func(i2 ssa.Instruction) {
					st, ok := i2.(*ssa.Store)
					if !ok {
						return
					}

					if ia, ok := st.Addr.(*ssa.IndexAddr); ok && sameSliceValue(ia.X, u) {
						elems = append(elems, st.Val)
					}
				})
			}
		}

		for _, e := range elems {
			n++

			key := "bytecode.CallDirect|result element " + sprintInt(n) + " comes from the call"
			if fromResults(e) {
				r.Discharge("R-C11-2", key, w.pos(in.Pos()), "")
			} else {
				r.Violate("R-C11-2", key, w.pos(in.Pos()), "a value handed back to the Ego caller is not what the Go function returned (for instance a zero value on the error path): strconv.ParseInt(\"300\", 10, 8) returns 127 with its range error in Go")
			}
		}
	})

	if n == 0 {
		r.Anchor("R-C11-2", "result lists built in bytecode.CallDirect")
	}

	c11IntegerOrder(w, r)
}

var c11OK = map[string]string{}

// c11Compare checks one declaration literal against a Go signature.
func c11Compare(w *World, r *Report, name string, at ast.Node, decl *ast.CompositeLit, sig *types.Signature) {
	{
		{
			{
				var (
					params   []ast.Expr
					returns  []ast.Expr
					variadic bool
				)

				for _, el := range decl.Elts {
					kv, ok := el.(*ast.KeyValueExpr)
					if !ok {
						continue
					}

					k, _ := kv.Key.(*ast.Ident)
					if k == nil {
						continue
					}

					switch k.Name {
					case "Variadic":
						if id, ok := kv.Value.(*ast.Ident); ok && id.Name == "true" {
							variadic = true
						}
					case "Parameters":
						if pl, ok := kv.Value.(*ast.CompositeLit); ok {
							for _, pe := range pl.Elts {
								pc, ok := pe.(*ast.CompositeLit)
								if !ok {
									params = append(params, nil)

									continue
								}

								var pt ast.Expr

								for _, f := range pc.Elts {
									if fkv, ok := f.(*ast.KeyValueExpr); ok {
										if fk, ok := fkv.Key.(*ast.Ident); ok && fk.Name == "Type" {
											pt = fkv.Value
										}
									}
								}

								params = append(params, pt)
							}
						}
					case "Returns":
						if rl, ok := kv.Value.(*ast.CompositeLit); ok {
							returns = append(returns, rl.Elts...)
						}
					}
				}

				key := name + "|declaration matches the Go signature"

				var problems []string

				if len(params) != sig.Params().Len() {
					problems = append(problems, "declares "+sprintInt(len(params))+" parameter(s), the Go function takes "+sprintInt(sig.Params().Len()))
				}

				if variadic != sig.Variadic() {
					problems = append(problems, "variadic flag differs from the Go function")
				}

				// a trailing Go error may be left out of the declaration: the call site accepts
				// both `v := f()` and `v, err := f()` and the marshaller supplies the error itself
				trailingErr := sig.Results().Len() > 0 && c11GoType(sig.Results().At(sig.Results().Len()-1).Type()) == "error"

				if len(returns) != sig.Results().Len() && !(trailingErr && len(returns) == sig.Results().Len()-1) {
					problems = append(problems, "declares "+sprintInt(len(returns))+" result(s), the Go function returns "+sprintInt(sig.Results().Len()))
				}

				unmapped := 0

				for i, pe := range params {
					if i >= sig.Params().Len() {
						break
					}

					gt := sig.Params().At(i).Type()
					if sig.Variadic() && i == sig.Params().Len()-1 {
						if sl, ok := gt.(*types.Slice); ok {
							gt = sl.Elem()
						}
					}

					dt := ""
					if pe != nil {
						dt = c11DeclType(pe)
					}

					if dt == "" {
						unmapped++

						continue
					}

					if dt != c11GoType(gt) {
						problems = append(problems, "parameter "+sprintInt(i+1)+" is declared "+dt+" but the Go function takes "+c11GoType(gt))
					}
				}

				for i, re := range returns {
					if i >= sig.Results().Len() {
						break
					}

					dt := c11DeclType(re)
					if dt == "" {
						unmapped++

						continue
					}

					if gt := c11GoType(sig.Results().At(i).Type()); dt != gt {
						problems = append(problems, "result "+sprintInt(i+1)+" is declared "+dt+" but the Go function returns "+gt)
					}
				}

				switch {
				case len(problems) > 0:
					if why, ok := c11OK[key]; ok {
						r.Except("R-C11-1", key, w.pos(at.Pos()), why)
					} else {
						r.Violate("R-C11-1", key, w.pos(at.Pos()), problems[0]+": the marshaller converts arguments and results by the declaration, so the call fails or returns a value of another type than documented")
					}
				default:
					r.Discharge("R-C11-1", key, w.pos(at.Pos()), "")

					if unmapped > 0 {
						r.Info("R-C11-1", key+"|unmapped types", w.pos(at.Pos()), sprintInt(unmapped)+" declared type(s) have no entry in the mapping table (package types, maps, pointers): not compared")
					}
				}

			}
		}
	}
}
