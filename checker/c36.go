package main

import (
	"go/types"
	"strings"

	"golang.org/x/tools/go/ssa"
)

// C36 langlint rewrites are crash-safe.
//
// Decided: the order and the operands of file-system operations in
// tools/langlint.  The file being linted may only ever be replaced by one
// atomic rename of a completely written and closed temporary file.

func init() {
	register(&propertyCheck{
		id: "C36", level: "other", needs: loadNeeds{ssa: true},
		decides: "in package tools/langlint no file-system call can remove, truncate, overwrite in place or rename away a path that may be an input file; " +
			"the only operation whose destination is an input path is os.Rename from a temporary file created by os.CreateTemp, and that rename is reachable only through the nil-error edges of the temporary file's write and Close; " +
			"every return after a successful CreateTemp has removed or renamed the temporary file.",
		misses: "durability across power loss (no fsync is required by the property), atomicity of rename(2) itself (POSIX contract, trusted), stale temporary files left by an earlier crashed run.",
		run:    runC36,
	})
}

var c36Destructive = map[string]int{ // callID -> index of the path operand that is destroyed
	"os.Remove": 0, "os.RemoveAll": 0, "os.Truncate": 0, "os.Create": 0, "os.WriteFile": 0,
	"os.OpenFile": 0, "os.Rename": 0, "io/ioutil.WriteFile": 0, "os.Link": 1, "os.Symlink": 1,
}

func runC36(w *World, r *Report) {
	r.Rule("R-C36-1", "no destructive file operation (Remove/RemoveAll/Truncate/Create/WriteFile/OpenFile-for-write/Rename-source/Link-target) in tools/langlint takes an operand that may be an input path (a string parameter reaching it without a suffix being appended)", 3)
	r.Rule("R-C36-2", "every os.Rename whose destination may be an input path takes its source from (*os.File).Name() of an os.CreateTemp result, and is unreachable once the nil-error edges of that file's write calls, resp. of its Close, are removed", 1)
	r.Rule("R-C36-3", "no path from the success edge of os.CreateTemp to a return avoids both os.Remove(temp) and os.Rename(temp, _)", 1)

	pkg := w.pkg("tools/langlint")
	if pkg == nil {
		r.Anchor("R-C36-1", "package tools/langlint")

		return
	}

	fns := w.srcFuncs(pkg)
	r.Unit("functions", len(fns))

	// ---- may-be-input-path analysis (in-package, through static calls)
	callers := map[*ssa.Function][]*ssa.Call{}

	for _, fn := range fns {
		allInstrs(fn, func(in ssa.Instruction) {
			if c, ok := in.(*ssa.Call); ok {
				if cf := calleeFunction(c.Common()); cf != nil && cf.Pkg == fn.Pkg {
					callers[cf] = append(callers[cf], c)
				}
			}
		})
	}

	// identity-preserving calls: result may name the same file as the argument
	samePath := func(id string) bool {
		switch id {
		case "path/filepath.Clean", "path/filepath.Abs", "path/filepath.FromSlash", "path/filepath.ToSlash",
			"path/filepath.EvalSymlinks", "path.Clean", "strings.TrimSpace", "strings.Clone":
			return true
		}

		return false
	}

	var mayBeInput func(v ssa.Value, depth int, seen map[ssa.Value]bool) bool

	mayBeInput = func(v ssa.Value, depth int, seen map[ssa.Value]bool) bool {
		if seen[v] || depth > 6 {
			return depth > 6 // too deep: be conservative
		}

		seen[v] = true

		switch x := v.(type) {
		case *ssa.Parameter:
			fn := x.Parent()
			if !types.Identical(x.Type().Underlying(), types.Typ[types.String]) {
				return false
			}

			cs := callers[fn]
			exported := fn.Object() != nil && fn.Object().Exported() || fn.Name() == "main"

			if len(cs) == 0 || exported || fn.Parent() != nil {
				return true
			}

			idx := -1

			for i, p := range fn.Params {
				if p == x {
					idx = i
				}
			}

			for _, c := range cs {
				if idx < 0 || idx >= len(c.Call.Args) || mayBeInput(c.Call.Args[idx], depth+1, seen) {
					return true
				}
			}

			return false
		case *ssa.Phi:
			for _, e := range x.Edges {
				if mayBeInput(e, depth, seen) {
					return true
				}
			}
		case *ssa.ChangeType:
			return mayBeInput(x.X, depth, seen)
		case *ssa.Convert:
			return mayBeInput(x.X, depth, seen)
		case *ssa.Call:
			if samePath(callID(x.Common())) {
				for _, a := range x.Call.Args {
					if mayBeInput(a, depth, seen) {
						return true
					}
				}
			}
		case *ssa.Extract:
			return mayBeInput(x.Tuple, depth, seen)
		case *ssa.UnOp: // load
			if vals, ok := storedValues(x.X); ok {
				for _, sv := range vals {
					if mayBeInput(sv, depth, seen) {
						return true
					}
				}

				return false
			}

			return true // flag.Args()[i], globals, os.Args
		case *ssa.Index, *ssa.Lookup, *ssa.Field:
			return true
		case *ssa.FreeVar:
			return true
		}

		return false
	}

	// temp provenance: (*os.File).Name() on the file result of os.CreateTemp
	tempFileOf := func(v ssa.Value) *ssa.Call {
		var found *ssa.Call

		derivesFrom(v, func(s ssa.Value) bool {
			c, ok := s.(*ssa.Call)
			if !ok || callID(c.Common()) != "os.File.Name" {
				return false
			}

			recv := resolveLocal(c.Call.Args[0])
			if ct, idx := resultOf(recv); ct != nil && idx == 0 && callID(ct.Common()) == "os.CreateTemp" {
				found = ct

				return true
			}

			return false
		}, nil)

		return found
	}

	for _, fn := range fns {
		fk := fnKey(fn)

		allCalls(fn, func(ci ssa.CallInstruction) {
			id := callID(ci.Common())

			idx, ok := c36Destructive[id]
			if !ok {
				return
			}

			args := ci.Common().Args
			if idx >= len(args) {
				return
			}

			if id == "os.OpenFile" {
				if fl, ok := constInt(args[1]); ok && fl&0x3 == 0 && fl&(0x40|0x200|0x400) == 0 {
					return // O_RDONLY without O_CREAT/O_TRUNC/O_APPEND
				}
			}

			key := fk + "|" + id + "(" + valueName(args[idx]) + ")"
			if mayBeInput(args[idx], 0, map[ssa.Value]bool{}) {
				r.Violate("R-C36-1", key, w.pos(ci.Pos()), id+" is applied to a path that may be the file being linted: a stop before the replacement completes leaves the path missing or partially written")
			} else {
				r.Discharge("R-C36-1", key, w.pos(ci.Pos()), "operand is not an input path ("+provenance(args[idx])+")")
			}

			// R-C36-2: rename onto an input path
			if id == "os.Rename" && mayBeInput(args[1], 0, map[ssa.Value]bool{}) {
				key2 := fk + "|os.Rename(" + valueName(args[0]) + "," + valueName(args[1]) + ")"
				ct := tempFileOf(args[0])

				if ct == nil {
					r.Violate("R-C36-2", key2, w.pos(ci.Pos()), "the content renamed onto the input path does not come from a temporary file created by os.CreateTemp in this function")

					return
				}

				file := ct // tuple; file value is Extract(ct,0)

				var problems []string

				for _, kind := range []string{"write", "close"} {
					var ops []*ssa.Call

					allInstrs(fn, func(in ssa.Instruction) {
						c, ok := in.(*ssa.Call)
						if !ok {
							return
						}

						cid := callID(c.Common())
						onFile := false

						for _, a := range callArgs(c.Common()) {
							if t, i := resultOf(resolveLocal(a)); t == file && i == 0 {
								onFile = true
							}
						}

						if !onFile {
							return
						}

						isWrite := strings.HasPrefix(cid, "os.File.Write") || cid == "os.File.ReadFrom" || cid == "io.Copy" || cid == "io.WriteString" || strings.HasPrefix(cid, "fmt.Fprint")
						if (kind == "write" && isWrite) || (kind == "close" && cid == "os.File.Close") {
							ops = append(ops, c)
						}
					})

					// the ops that dominate the rename
					var dom []*ssa.Call

					for _, c := range ops {
						if instrDominates(c, ci) {
							dom = append(dom, c)
						}
					}

					if len(dom) == 0 {
						problems = append(problems, "no "+kind+" of the temporary file precedes the rename on every path")

						continue
					}

					errVals := map[ssa.Value]bool{}

					for _, c := range dom {
						if c.Referrers() != nil {
							for _, ref := range *c.Referrers() {
								if e, ok := ref.(*ssa.Extract); ok && isErrorType(e.Type()) {
									errVals[e] = true
								}
							}
						}

						if isErrorType(c.Type()) {
							errVals[c] = true
						}
					}

					cuts := cutEdges(fn, func(f Fact) bool { return f.Kind == "nil" && errVals[f.V] })
					if instrReachableAfterCut(fn, ci, cuts) {
						problems = append(problems, "the rename is reachable when the temporary file's "+kind+" failed (its error is not tested, or not on every path)")
					}
				}

				if len(problems) > 0 {
					r.Violate("R-C36-2", key2, w.pos(ci.Pos()), strings.Join(problems, "; ")+": a short or failed write would be installed as the message file")
				} else {
					r.Discharge("R-C36-2", key2, w.pos(ci.Pos()), "source is CreateTemp().Name(); rename reachable only through nil-error edges of write and Close")
				}
			}
		})

		// R-C36-3: temp file not left behind
		allInstrs(fn, func(in ssa.Instruction) {
			ct, ok := in.(*ssa.Call)
			if !ok || callID(ct.Common()) != "os.CreateTemp" {
				return
			}

			var errV ssa.Value

			if ct.Referrers() != nil {
				for _, ref := range *ct.Referrers() {
					if e, ok := ref.(*ssa.Extract); ok && e.Index == 1 {
						errV = e
					}
				}
			}

			// remove the failure edge of CreateTemp
			cuts := cutEdges(fn, func(f Fact) bool { return f.Kind == "nonnil" && f.V == errV && errV != nil })
			handled := func(i ssa.Instruction) bool {
				if d, ok := i.(*ssa.Defer); ok {
					// a deferred call (or closure) that removes the temporary file
					found := false

					if id := callID(d.Common()); id == "os.Remove" && len(d.Call.Args) > 0 && tempFileOf(d.Call.Args[0]) == ct {
						found = true
					}

					if cf := calleeFunction(d.Common()); cf != nil && cf.Parent() == fn {
						allInstrs(cf, func(ci ssa.Instruction) {
							if c, ok := ci.(*ssa.Call); ok && callID(c.Common()) == "os.Remove" && tempFileOf(c.Call.Args[0]) == ct {
								found = true
							}
						})
					}

					return found
				}

				c, ok := i.(*ssa.Call)
				if !ok {
					return false
				}

				id := callID(c.Common())
				if id != "os.Remove" && id != "os.Rename" {
					return false
				}

				return tempFileOf(c.Call.Args[0]) == ct
			}

			leak := pathAvoiding(ct, cuts, handled, func(i ssa.Instruction) bool { _, ok := i.(*ssa.Return); return ok })
			key := fk + "|os.CreateTemp"

			if leak != nil {
				r.Violate("R-C36-3", key, w.pos(leak.Pos()), "this return is reachable after a successful os.CreateTemp without removing or renaming the temporary file (entry "+w.pos(ct.Pos())+")")
			} else {
				r.Discharge("R-C36-3", key, w.pos(ct.Pos()), "every return after CreateTemp passes os.Remove(temp) or os.Rename(temp, _)")
			}
		})
	}
}

func isErrorType(t types.Type) bool {
	return types.Identical(t, types.Universe.Lookup("error").Type())
}

// valueName gives a short stable name for a value (parameter / local name,
// or the kind of instruction).
func valueName(v ssa.Value) string {
	v = stripValue(v)

	switch x := v.(type) {
	case *ssa.Parameter:
		return x.Name()
	case *ssa.Const:
		return x.String()
	case *ssa.Call:
		return callID(x.Common()) + "()"
	case *ssa.BinOp:
		return valueName(x.X) + x.Op.String() + valueName(x.Y)
	case *ssa.Extract:
		return valueName(x.Tuple)
	case *ssa.Phi:
		return "phi:" + x.Comment
	case *ssa.Global:
		return x.Name()
	case *ssa.FreeVar:
		return x.Name()
	case *ssa.UnOp:
		return x.Op.String() + valueName(x.X)
	case *ssa.FieldAddr:
		return valueName(x.X) + "." + fieldName(x.X.Type(), x.Field)
	case *ssa.Field:
		return valueName(x.X) + "." + fieldName(x.X.Type(), x.Field)
	case *ssa.Alloc:
		return x.Comment
	}

	return strings.TrimPrefix(strings.TrimPrefix(strings.ToLower(typeName(v)), "*ssa."), "ssa.")
}

func typeName(v any) string {
	return strings.TrimPrefix(strings.TrimPrefix(sprintType(v), "*"), "ssa.")
}

func provenance(v ssa.Value) string { return valueName(v) }

func fieldName(t types.Type, i int) string {
	if p, ok := t.Underlying().(*types.Pointer); ok {
		t = p.Elem()
	}

	if s, ok := t.Underlying().(*types.Struct); ok && i < s.NumFields() {
		return s.Field(i).Name()
	}

	return "?"
}
