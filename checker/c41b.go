package main

import (
	"go/types"

	"golang.org/x/tools/go/ssa"
)

// c41CopyLoopsRunToTheEnd: R-C41-6. Both execution modes hand the service its
// request as lists built by loops over what arrived (header values, query
// parameter values). The in-process loop and the child's loop are twins; a loop
// that can stop before the end of its input hands the service a shorter list
// in one mode than in the other.
func c41CopyLoopsRunToTheEnd(w *World, r *Report) {
	r.Rule("R-C41-6", "request copy loops run to the end of their input: in package services, a loop over a []string (or over a map of them) whose body appends the ranged element to a list leaves only from its header (no break, return or goto out of the body)", 4)

	sp := w.pkg("internal/server/services")
	if sp == nil {
		return
	}

	isStringSlice := func(t types.Type) bool {
		sl, ok := t.Underlying().(*types.Slice)
		if !ok {
			return false
		}

		b, ok := sl.Elem().Underlying().(*types.Basic)

		return ok && b.Kind() == types.String
	}

	for _, fn := range w.srcFuncs(sp) {
		for _, li := range naturalLoops(fn) {
			// does the body append an element of a ranged []string?
			var site ssa.Instruction

			for b := range li.body {
				for _, in := range b.Instrs {
					c, ok := in.(*ssa.Call)
					if !ok {
						continue
					}

					if name, isB := lcBuiltin(c, true); !isB || name != "append" || len(c.Call.Args) < 2 {
						continue
					}

					for _, e := range packedElems(c.Call.Args[1]) {
						if derivesFrom(e, func(s ssa.Value) bool {
							ia, ok := s.(*ssa.IndexAddr)

							return ok && isStringSlice(ia.X.Type()) && li.body[ia.Block()]
						}, nil) {
							site = in
						}
					}
				}
			}

			if site == nil {
				continue
			}

			var early *ssa.BasicBlock

			for b := range li.body {
				if b == li.header {
					continue
				}

				for _, s := range b.Succs {
					if !li.body[s] {
						early = b
					}
				}

				if len(b.Succs) == 0 {
					early = b
				}
			}

			key := fnKey(fn) + "|request copy loop"

			if early != nil {
				r.Violate("R-C41-6", key, w.pos(site.Pos()), "the loop that copies request values into the list the service sees can be left before its input is exhausted: the values after that point are missing in this execution mode and present in the other (repeated Accept lines: [\"application/json\", \"text/plain\"] in-process, [\"application/json\"] in the child)")
			} else {
				r.Discharge("R-C41-6", key, w.pos(site.Pos()), "left only from the loop header")
			}
		}
	}
}
