package main

import (
	"strings"

	"golang.org/x/tools/go/ssa"
)

// R-C22-7: a revocation that could not be recorded is never acknowledged.
//
// Every handler that calls tokens.Blacklist must answer with a failure status
// on every path on which that call's error is not nil: a client told 200
// believes the token is dead while every later request carrying it is still
// accepted (RFC 7009 2.2.1 asks for a 503 so that the client retries).
func c22RevocationAcknowledged(w *World, r *Report) {
	r.Rule("R-C22-7", "a failed revocation is not acknowledged: in every function that calls tokens.Blacklist, each return reachable with that call's error non-nil carries a failure status (a constant other than 200, or the status handed to an error-response helper)", 2)

	n := 0
	seen := map[string]int{}

	for _, p := range w.pkgs {
		for _, fn := range w.srcFuncs(p) {
			allInstrs(fn, func(in ssa.Instruction) {
				c, ok := in.(*ssa.Call)
				if !ok || !strings.HasSuffix(callID(c.Common()), "language/tokens.Blacklist") {
					return
				}

				n++

				key := fnKey(fn) + "|tokens.Blacklist failure answered"
				seen[key]++

				if k := seen[key]; k > 1 {
					key += " #" + sprintInt(k)
				}

				// the handler must return an int status
				if fn.Signature.Results().Len() == 0 {
					r.Violate("R-C22-7", key, w.pos(in.Pos()), "tokens.Blacklist is called from a function that cannot report a status")

					return
				}

				// assume the error is not nil: remove the edges that say it is nil
				isErr := func(v ssa.Value) bool { return v == ssa.Value(c) || resolveLocal(v) == ssa.Value(c) }

				cuts := cutEdges(fn, func(f Fact) bool { return f.Kind == "nil" && isErr(f.V) })
				if len(cuts) == 0 {
					r.Violate("R-C22-7", key, w.pos(in.Pos()), "the error of tokens.Blacklist is never tested: a revocation that was not recorded is answered like one that was")

					return
				}

				bad := ""

				for _, ret := range returnsOf(fn) {
					reach := pathAvoiding(c, cuts, func(ssa.Instruction) bool { return false }, func(i ssa.Instruction) bool { return i == ssa.Instruction(ret) })
					if reach == nil {
						continue
					}

					if ok, why := c22FailureStatus(retResult(ret, 0), 0); !ok {
						bad = w.pos(ret.Pos()) + " (" + why + ")"
					}
				}

				if bad != "" {
					r.Violate("R-C22-7", key, w.pos(in.Pos()), "with the revocation not recorded the handler can still answer success at "+bad+": the client believes the token is revoked while every later request carrying it is accepted")
				} else {
					r.Discharge("R-C22-7", key, w.pos(in.Pos()), "every return reachable with a non-nil error carries a failure status")
				}
			})
		}
	}
}

// c22FailureStatus: v is certainly not a success status.
func c22FailureStatus(v ssa.Value, depth int) (bool, string) {
	if v == nil || depth > 4 {
		return false, "a status that could not be followed"
	}

	v = resolveLocal(v)

	if k, isC := constInt(v); isC {
		if k >= 400 {
			return true, ""
		}

		return false, "the constant status " + sprintInt(int(k))
	}

	switch x := v.(type) {
	case *ssa.Call:
		id := callID(x.Common())
		if (strings.HasSuffix(id, "util.ErrorResponse") || strings.HasSuffix(id, "authserver.writeOAuthError")) && len(x.Call.Args) > 0 {
			if k, isC := constInt(x.Call.Args[len(x.Call.Args)-1]); isC && k >= 400 {
				return true, ""
			}

			return false, "an error response whose status is not a constant failure status"
		}
	case *ssa.Phi:
		for _, e := range x.Edges {
			if ok, why := c22FailureStatus(e, depth+1); !ok {
				return false, why
			}
		}

		return true, ""
	}

	return false, "a status computed as " + c40Describe(v)
}

// valueInvolvesFieldLoad: v is computed from a load of a struct field named
// field (through phis, conversions, slices, append and any other call that
// receives such a value as an argument).
func valueInvolvesFieldLoad(v ssa.Value, field string, seen map[ssa.Value]bool) bool {
	if v == nil || seen[v] {
		return false
	}

	seen[v] = true

	switch x := v.(type) {
	case *ssa.UnOp:
		if fa, ok := x.X.(*ssa.FieldAddr); ok && fieldName(fa.X.Type(), fa.Field) == field {
			return true
		}

		return valueInvolvesFieldLoad(x.X, field, seen)
	case *ssa.Phi:
		for _, e := range x.Edges {
			if valueInvolvesFieldLoad(e, field, seen) {
				return true
			}
		}
	case *ssa.Call:
		for _, a := range x.Call.Args {
			if valueInvolvesFieldLoad(a, field, seen) {
				return true
			}
		}
	case *ssa.Slice:
		return valueInvolvesFieldLoad(x.X, field, seen)
	case *ssa.ChangeType:
		return valueInvolvesFieldLoad(x.X, field, seen)
	case *ssa.Convert:
		return valueInvolvesFieldLoad(x.X, field, seen)
	case *ssa.MakeInterface:
		return valueInvolvesFieldLoad(x.X, field, seen)
	case *ssa.Extract:
		return valueInvolvesFieldLoad(x.Tuple, field, seen)
	case *ssa.Alloc:
		// a local: what was stored into it
		for _, ref := range *x.Referrers() {
			if st, ok := ref.(*ssa.Store); ok && st.Addr == ssa.Value(x) && valueInvolvesFieldLoad(st.Val, field, seen) {
				return true
			}
		}
	}

	return false
}

// R-C22-8: the verification keys in force are the ones the provider publishes.
// refreshJWKS replaces the cached key set; if the new set is computed from the
// old one, a key the provider has withdrawn stays trusted for the life of the
// process and a token signed with it keeps verifying.
func c22KeySetReplaced(w *World, r *Report) {
	r.Rule("R-C22-8", "refreshJWKS replaces the cached key set with the fetched one: the value stored into the cache's keys is not computed from the keys cached before", 1)

	op := w.pkg("internal/server/oauth")
	if op == nil {
		return
	}

	fn := w.ssaFunc(op, "refreshJWKS")
	if fn == nil {
		r.Anchor("R-C22-8", "oauth.refreshJWKS")

		return
	}

	n := 0

	allInstrs(fn, func(in ssa.Instruction) {
		st, ok := in.(*ssa.Store)
		if !ok {
			return
		}

		fa, ok := st.Addr.(*ssa.FieldAddr)
		if !ok || fieldName(fa.X.Type(), fa.Field) != "keys" {
			return
		}

		n++

		key := "oauth.refreshJWKS|key set replaced"
		if n > 1 {
			key += " #" + sprintInt(n)
		}

		if valueInvolvesFieldLoad(st.Val, "keys", map[ssa.Value]bool{}) {
			r.Violate("R-C22-8", key, w.pos(st.Pos()), "the key set cached after a refresh is computed from the set cached before it: a signing key the provider no longer publishes stays trusted, and a token signed with the withdrawn key is accepted")
		} else {
			r.Discharge("R-C22-8", key, w.pos(st.Pos()), "stored value does not involve the previous key set")
		}
	})

	if n == 0 {
		r.Anchor("R-C22-8", "the store of the key set in oauth.refreshJWKS")
	}
}
