package main

import (
	"go/types"
	"strings"

	"golang.org/x/tools/go/ssa"
)

// C30 The resource store behaves like a keyed record set.

func init() {
	register(&propertyCheck{
		id: "C30", level: "other", needs: loadNeeds{ssa: true},
		decides: "three structural conditions without which filtered operations silently act on the wrong records: no method of internal/resources with a value receiver calls (transitively) a method that stores into the receiver (the recorded error would be lost and a nil filter means 'no filter'); every constant column name handed to a filter / sort / modifier method of a handle names a field of the record type that handle was opened with; record values reach SQL only as bound parameters, never inside the statement text.",
		misses: "agreement of query results with an in-memory model over operation sequences, type conversions in Read, transactions, concurrent use of one handle.",
		run:    runC30,
	})
}

func runC30(w *World, r *Report) {
	r.Rule("R-C30-1", "lost writes: no value-receiver method in internal/resources passes its receiver copy to a method that writes a receiver field (directly or transitively)", 6)
	r.Rule("R-C30-2", "constant column names given to Equals/NotEquals/LessThan/GreaterThan/Sort/SetPrimaryKey/Nullable/SetSQLType/SetSQLName exist (case-insensitively) in the struct the handle was opened with", 25)
	r.Rule("R-C30-3", "values are bound, not spliced: in internal/resources nothing derived from Filter.Value or from a record's exploded field values flows into the statement text given to Exec/Query", 5)

	c30PlaceholderBinding(w, r)
	c30ReadReportsBrokenResults(w, r)

	rp := w.pkg("internal/resources")
	if rp == nil {
		r.Anchor("R-C30-1", "package internal/resources")

		return
	}

	fns := w.srcFuncs(rp)

	// ---- R-C30-4: records of one Read do not share storage
	r.Rule("R-C30-4", "per-row freshness: in ResHandle.Read the record (reflect.New) and every decode target handed to json.Unmarshal are created inside the row loop, so two records of one result never share a backing array", 2)

	if rd := w.ssaFunc(rp, "ResHandle.Read"); rd == nil {
		r.Anchor("R-C30-4", "resources.ResHandle.Read")
	} else {
		// the row loop: the loop whose body calls (*sql.Rows).Scan
		var rowLoop *loopInfo

		for _, li := range naturalLoops(rd) {
			for b := range li.body {
				for _, in := range b.Instrs {
					if c, ok := in.(*ssa.Call); ok && callID(c.Common()) == "database/sql.Rows.Scan" {
						if rowLoop == nil || len(li.body) < len(rowLoop.body) {
							rowLoop = li
						}
					}
				}
			}
		}

		if rowLoop == nil {
			r.Anchor("R-C30-4", "the loop over rows.Scan in ResHandle.Read")
		} else {
			n := 0

			for b := range rowLoop.body {
				for _, in := range b.Instrs {
					c, ok := in.(*ssa.Call)
					if !ok {
						continue
					}

					switch callID(c.Common()) {
					case "encoding/json.Unmarshal":
						n++

						key := "resources.ResHandle.Read|json.Unmarshal target is per row"
						if n > 1 {
							key += "#" + sprintInt(n)
						}

						target := stripValue(c.Call.Args[1])
						al, isAlloc := target.(*ssa.Alloc)

						switch {
						case !isAlloc:
							r.Violate("R-C30-4", key, w.pos(in.Pos()), "the decode target is not a variable of this function")
						case !rowLoop.body[al.Block()]:
							r.Violate("R-C30-4", key, w.pos(in.Pos()), "the slice json.Unmarshal decodes into is declared outside the row loop: Unmarshal reuses its backing array, so the list field of an earlier record is overwritten by a later row")
						default:
							r.Discharge("R-C30-4", key, w.pos(in.Pos()), "declared inside the row loop")
						}
					case "reflect.New":
						r.Discharge("R-C30-4", "resources.ResHandle.Read|record allocated per row", w.pos(in.Pos()), "reflect.New inside the row loop")
					}
				}
			}

			if n == 0 {
				r.Anchor("R-C30-4", "json.Unmarshal in the row loop of ResHandle.Read")
			}
		}
	}

	// ---- R-C30-1
	// writesRecv: functions (pointer receiver / first pointer param) that store to a field of param 0
	writes := map[*ssa.Function]string{}

	for changed := true; changed; {
		changed = false

		for _, fn := range fns {
			if _, done := writes[fn]; done || len(fn.Params) == 0 {
				continue
			}

			p0 := fn.Params[0]
			if _, isPtr := p0.Type().Underlying().(*types.Pointer); !isPtr {
				continue
			}

			why := ""

			allInstrs(fn, func(in ssa.Instruction) {
				switch x := in.(type) {
				case *ssa.Store:
					if fa, ok := x.Addr.(*ssa.FieldAddr); ok && fa.X == ssa.Value(p0) {
						why = "stores " + fieldName(fa.X.Type(), fa.Field)
					}
				case *ssa.Call:
					if cf := calleeFunction(x.Common()); cf != nil {
						if w2, ok := writes[cf]; ok && len(x.Call.Args) > 0 && x.Call.Args[0] == ssa.Value(p0) {
							why = "calls " + cf.Name() + " (" + w2 + ")"
						}
					}
				}
			})

			if why != "" {
				writes[fn] = why
				changed = true
			}
		}
	}

	for _, fn := range fns {
		recv := fn.Signature.Recv()
		if recv == nil || fn.Parent() != nil {
			continue
		}

		if _, isPtr := recv.Type().Underlying().(*types.Pointer); isPtr {
			continue
		}

		key := fnKey(fn) + "|value receiver"
		bad := ""

		allInstrs(fn, func(in ssa.Instruction) {
			c, ok := in.(*ssa.Call)
			if !ok {
				return
			}

			cf := calleeFunction(c.Common())
			if cf == nil {
				return
			}

			why, isWriter := writes[cf]
			if !isWriter || len(c.Call.Args) == 0 {
				return
			}

			// the argument is the address of this method's receiver copy
			if a, isAlloc := c.Call.Args[0].(*ssa.Alloc); isAlloc {
				for _, st := range storesTo(fn, a) {
					if st.Val == ssa.Value(fn.Params[0]) {
						bad = cf.Name() + " " + why
					}
				}
			}
		})

		if bad != "" {
			r.Violate("R-C30-1", key, w.pos(fn.Pos()), "this method has a value receiver but calls "+bad+": the write lands in a copy of the handle and is lost (an unknown column then yields a nil filter, i.e. no filter at all)")
		} else {
			r.Discharge("R-C30-1", key, w.pos(fn.Pos()), "does not write through its receiver copy")
		}
	}

	// ---- R-C30-2
	// handle locations -> record type
	type loc struct {
		global *ssa.Global
		field  string // "Type.field"
	}

	recType := map[string]*types.Named{}

	locKey := func(addr ssa.Value) string {
		switch x := addr.(type) {
		case *ssa.Global:
			return "g:" + x.Pkg.Pkg.Path() + "." + x.Name()
		case *ssa.FieldAddr:
			if n := namedOf(x.X.Type()); n != nil {
				return "f:" + n.Obj().Pkg().Path() + "." + n.Obj().Name() + "." + fieldName(x.X.Type(), x.Field)
			}
		}

		return ""
	}

	for _, p := range w.pkgs {
		for _, fn := range w.srcFuncs(p) {
			allInstrs(fn, func(in ssa.Instruction) {
				st, ok := in.(*ssa.Store)
				if !ok {
					return
				}

				c, idx := resultOf(st.Val)
				if c == nil || idx != 0 || callID(c.Common()) != "internal/resources.Open" {
					return
				}

				mi, ok := c.Call.Args[0].(*ssa.MakeInterface)
				if !ok {
					return
				}

				if k := locKey(st.Addr); k != "" {
					if n := namedOf(mi.X.Type()); n != nil {
						recType[k] = n
					}
				}
			})
		}
	}

	r.Unit("handles", sortedKeys(recType))

	nameMethods := map[string]bool{"Equals": true, "NotEquals": true, "LessThan": true, "GreaterThan": true, "Sort": true,
		"SetPrimaryKey": true, "Nullable": true, "SetSQLType": true, "SetSQLName": true}

	handleType := func(v ssa.Value) *types.Named {
		v = stripValue(v)

		// chained modifiers return the handle: h.Sort(..).Read(...)
		for i := 0; i < 6; i++ {
			c, ok := v.(*ssa.Call)
			if !ok {
				break
			}

			if strings.HasPrefix(callID(c.Common()), "internal/resources.ResHandle.") && len(c.Call.Args) > 0 {
				v = stripValue(c.Call.Args[0])

				continue
			}

			break
		}

		if u, ok := v.(*ssa.UnOp); ok {
			if k := locKey(u.X); k != "" {
				return recType[k]
			}
		}

		if ph, ok := v.(*ssa.Phi); ok {
			for _, e := range ph.Edges {
				if u, ok := stripValue(e).(*ssa.UnOp); ok {
					if k := locKey(u.X); k != "" && recType[k] != nil {
						return recType[k]
					}
				}
			}
		}

		return nil
	}

	for _, p := range w.pkgs {
		if p == rp {
			continue
		}

		for _, fn := range w.srcFuncs(p) {
			allInstrs(fn, func(in ssa.Instruction) {
				c, ok := in.(*ssa.Call)
				if !ok {
					return
				}

				id := callID(c.Common())
				if !strings.HasPrefix(id, "internal/resources.ResHandle.") {
					return
				}

				m := strings.TrimPrefix(id, "internal/resources.ResHandle.")
				if !nameMethods[m] {
					return
				}

				var names []string

				if m == "Sort" {
					// variadic: constants stored into the backing array
					if sl, ok := c.Call.Args[1].(*ssa.Slice); ok {
						allInstrs(fn, func(i2 ssa.Instruction) {
							if st, ok := i2.(*ssa.Store); ok {
								if ia, ok := st.Addr.(*ssa.IndexAddr); ok && ia.X == sl.X {
									if s, isC := constString(st.Val); isC {
										names = append(names, s)
									}
								}
							}
						})
					}
				} else if s, isC := constString(c.Call.Args[1]); isC {
					names = append(names, s)
				}

				if len(names) == 0 {
					return
				}

				t := handleType(c.Call.Args[0])

				for _, name := range names {
					key := fnKey(fn) + "|" + m + "(" + name + ")"

					if t == nil {
						r.Info("R-C30-2", key, w.pos(c.Pos()), "handle's record type not resolved (handle passed as a parameter); name not judged")

						continue
					}

					st, _ := t.Underlying().(*types.Struct)
					found := false

					for i := 0; st != nil && i < st.NumFields(); i++ {
						if strings.EqualFold(st.Field(i).Name(), name) {
							found = true
						}
					}

					if found {
						r.Discharge("R-C30-2", key, w.pos(c.Pos()), "field of "+t.Obj().Name())
					} else {
						r.Violate("R-C30-2", key, w.pos(c.Pos()), "record type "+t.Obj().Name()+" has no field "+name+": the filter is invalid and (with the error lost or ignored) the operation matches every record")
					}
				}
			})
		}
	}

	// ---- R-C30-3
	for _, fn := range fns {
		var seeds []ssa.Value

		var sinks []*ssa.Call

		allInstrs(fn, func(in ssa.Instruction) {
			switch x := in.(type) {
			case *ssa.FieldAddr:
				if fieldName(x.X.Type(), x.Field) == "Value" && namedOf(x.X.Type()) != nil && namedOf(x.X.Type()).Obj().Name() == "Filter" {
					seeds = append(seeds, x)
				}
			case *ssa.Call:
				id := callID(x.Common())
				if id == "internal/resources.ResHandle.explode" {
					seeds = append(seeds, x)
				}

				if strings.HasPrefix(id, "database/sql.DB.") || strings.HasPrefix(id, "database/sql.Tx.") {
					switch strings.TrimPrefix(strings.TrimPrefix(id, "database/sql.DB."), "database/sql.Tx.") {
					case "Exec", "Query", "QueryRow", "Prepare", "ExecContext", "QueryContext":
						sinks = append(sinks, x)
					}
				}
			}
		})

		for _, p := range fn.Params {
			if p.Name() == "v" || p.Name() == "key" {
				seeds = append(seeds, p)
			}
		}

		if len(sinks) == 0 {
			continue
		}

		fl := flowForward(fn, seeds, flowOpts{cleanScalars: true})

		for _, sk := range sinks {
			key := fnKey(fn) + "|" + lastSeg(callID(sk.Common())) + " text"
			text := sk.Call.Args[1]

			if _, isCtx := text.Type().Underlying().(*types.Interface); isCtx && len(sk.Call.Args) > 2 {
				text = sk.Call.Args[2]
			}

			if fl.has(text) {
				r.Violate("R-C30-3", key, w.pos(sk.Pos()), "a record or filter value flows into the SQL text instead of being bound as a parameter")
			} else {
				r.Discharge("R-C30-3", key, w.pos(sk.Pos()), "statement text is built from identifiers and placeholders only")
			}
		}
	}
}

func storesTo(fn *ssa.Function, a *ssa.Alloc) []*ssa.Store {
	var out []*ssa.Store

	allInstrs(fn, func(in ssa.Instruction) {
		if st, ok := in.(*ssa.Store); ok && st.Addr == ssa.Value(a) {
			out = append(out, st)
		}
	})

	return out
}
