package main

import (
	"go/token"
	"strings"

	"golang.org/x/tools/go/ssa"
)

// c14SanitizerShape: R-C14-5 and R-C14-6. R-C14-1/2 treat parsing.SQLEscape as
// the sanitizer for values that are wrapped in quotes by the caller, and
// filterClause as the place where a filter operand becomes SQL text. Both have
// to deserve it.
func c14SanitizerShape(w *World, r *Report) {
	r.Rule("R-C14-5", "SQLEscape refuses a quote wherever it stands: in the loop over the source the tests for ' and \" are reachable without crossing a branch on the position of the character", 2)
	r.Rule("R-C14-6", "only a number carries a sign: in parsing.filterClause a value token made by joining the sign to the spelling of the following token is reachable only through the true edge of an IsClass(IntegerTokenClass/FloatTokenClass) test of that token", 1)

	pp := w.pkg("internal/server/tables/parsing")
	if pp == nil {
		return
	}

	// ---- R-C14-5
	if fn := w.ssaFunc(pp, "SQLEscape"); fn == nil {
		r.Anchor("R-C14-5", "parsing.SQLEscape")
	} else {
		isIndex := func(v ssa.Value) bool {
			return derivesFrom(v, func(s ssa.Value) bool {
				e, ok := s.(*ssa.Extract)
				if !ok || e.Index != 1 {
					return false
				}

				_, isNext := e.Tuple.(*ssa.Next)

				return isNext
			}, nil)
		}

		cuts := map[Edge]bool{}

		for _, b := range fn.Blocks {
			ifi, ok := b.Instrs[len(b.Instrs)-1].(*ssa.If)
			if !ok {
				continue
			}

			if cmp, ok := ifi.Cond.(*ssa.BinOp); ok && (isIndex(cmp.X) || isIndex(cmp.Y)) {
				cuts[Edge{b, 0}] = true
				cuts[Edge{b, 1}] = true
			}
		}

		for _, q := range []struct {
			code int64
			name string
		}{{'\'', "single quote"}, {'"', "double quote"}} {
			var test ssa.Instruction

			reachable := false

			allInstrs(fn, func(in ssa.Instruction) {
				bo, ok := in.(*ssa.BinOp)
				if !ok || bo.Op != token.EQL {
					return
				}

				for _, side := range []ssa.Value{bo.X, bo.Y} {
					if k, isK := constInt(side); isK && k == q.code {
						test = in

						// reachable whatever the position, and from its true edge
						// the refusal follows whatever the position
						blk := bo.Block()

						ifi, isIf := blk.Instrs[len(blk.Instrs)-1].(*ssa.If)
						if !isIf || ifi.Cond != ssa.Value(bo) || !instrReachableAfterCut(fn, in, cuts) {
							continue
						}

						for rb := range reach(blk.Succs[0], cuts, nil) {
							if ret, ok := rb.Instrs[len(rb.Instrs)-1].(*ssa.Return); ok && len(ret.Results) == 2 && !isNilConst(stripValue(retResult(ret, 1))) {
								if _, isPhi := stripValue(retResult(ret, 1)).(*ssa.Phi); !isPhi {
									reachable = true
								}
							}
						}
					}
				}
			})

			key := "parsing.SQLEscape|" + q.name + " refused at every position"

			switch {
			case test == nil:
				r.Violate("R-C14-5", key, w.pos(fn.Pos()), "SQLEscape does not look for the "+q.name)
			case !reachable:
				r.Violate("R-C14-5", key, w.pos(test.Pos()), "the "+q.name+" is refused only at some positions of the value: a value that ends in a quote (`\"x'\"`) is accepted, the caller wraps it in quotes, and the text of the next clause becomes SQL (`filter=EQ(name,\"x'\"),EQ(name,\" OR 1=1) --\")` reads or deletes every row)")
			default:
				r.Discharge("R-C14-5", key, w.pos(test.Pos()), "")
			}
		}
	}

	// ---- R-C14-6
	fn := w.ssaFunc(pp, "filterClause")
	if fn == nil {
		r.Anchor("R-C14-6", "parsing.filterClause")

		return
	}

	n := 0

	allInstrs(fn, func(in ssa.Instruction) {
		c, ok := in.(*ssa.Call)
		if !ok || !strings.HasSuffix(callID(c.Common()), "tokenizer.Tokenizer.NewToken") {
			return
		}

		args := callArgs(c.Common())

		cat, ok := stripValue(args[len(args)-1]).(*ssa.BinOp)
		if !ok || cat.Op != token.ADD {
			return
		}

		// the token whose spelling is joined on
		var tok ssa.Value

		for _, side := range []ssa.Value{cat.X, cat.Y} {
			if sc, ok := side.(*ssa.Call); ok && strings.HasSuffix(callID(sc.Common()), "tokenizer.Token.Spelling") {
				if nc, ok := stripValue(callArgs(sc.Common())[0]).(*ssa.Call); ok && strings.HasSuffix(callID(nc.Common()), "tokenizer.Tokenizer.Next") {
					tok = nc
				}
			}
		}

		if tok == nil {
			return
		}

		n++
		key := "parsing.filterClause|signed operand is a number"

		cuts := cutEdges(fn, func(f Fact) bool {
			ic, ok := f.V.(*ssa.Call)
			if !ok || f.Kind != "true" || !strings.HasSuffix(callID(ic.Common()), "tokenizer.Token.IsClass") {
				return false
			}

			return stripValue(callArgs(ic.Common())[0]) == tok
		})

		if len(cuts) == 0 || pathAvoiding(tok.(ssa.Instruction), cuts, func(ssa.Instruction) bool { return false }, func(i ssa.Instruction) bool { return i == in }) != nil {
			r.Violate("R-C14-6", key, w.pos(in.Pos()), "a sign is glued to the spelling of whatever token follows and the result is labelled a bare value: a string operand loses its quotes (`filter=EQ(id,-\"1 OR 1=1\")` becomes `WHERE (\"id\" = -1 OR 1=1)`)")
		} else {
			r.Discharge("R-C14-6", key, w.pos(in.Pos()), "behind IsClass on the joined token")
		}
	})

	if n == 0 {
		r.Anchor("R-C14-6", "the signed-constant token in parsing.filterClause")
	}
}
