package main

import (
	"go/ast"
	"go/token"
	"go/types"
	"sort"
	"strings"

	"golang.org/x/tools/go/packages"
	"golang.org/x/tools/go/ssa"
)

// C44, second part: secrets that travel outside the record types.
//
// R-C44-5  the settings Ego code may not read (defs.RestrictedSettings) include
//          every setting classified as secret, and every run-time-named
//          settings.Get in the runtime packages sits behind that table.
// R-C44-6  the clear-text DSN password (the result of dsns.decrypt and every
//          value computed from it, across calls) is never built into an error
//          value, returned as an error, or written to a response.
// R-C44-7  a connection string composed from the clear-text password leaves
//          its composer only after url.Parse accepted it (a string the driver's
//          URL parser rejects is quoted in the driver's error, password and all).

// ---------------------------------------------------------------------------
// R-C44-5

func c44Restricted(w *World, r *Report, defs *packages.Package) {
	r.Rule("R-C44-5", "every setting classified as secret is a true-valued key of defs.RestrictedSettings, and every settings.Get with a run-time key in the runtime and builtin packages is reachable only when RestrictedSettings[key] is false", 8)

	var lit *ast.CompositeLit

	for _, f := range defs.Syntax {
		for _, d := range f.Decls {
			gd, ok := d.(*ast.GenDecl)
			if !ok || gd.Tok != token.VAR {
				continue
			}

			for _, sp := range gd.Specs {
				vs := sp.(*ast.ValueSpec)
				for i, n := range vs.Names {
					if n.Name == "RestrictedSettings" && i < len(vs.Values) {
						lit, _ = vs.Values[i].(*ast.CompositeLit)
					}
				}
			}
		}
	}

	if lit == nil {
		r.Anchor("R-C44-5", "defs.RestrictedSettings (map literal)")

		return
	}

	listed := map[string]bool{}

	for _, e := range lit.Elts {
		kv, ok := e.(*ast.KeyValueExpr)
		if !ok {
			continue
		}

		id, ok := kv.Key.(*ast.Ident)
		if !ok {
			continue
		}

		if tv, ok := defs.TypesInfo.Types[kv.Value]; ok && tv.Value != nil && tv.Value.String() == "true" {
			if c, ok := defs.TypesInfo.Uses[id].(*types.Const); ok {
				listed[c.Name()] = true
			}
		}
	}

	for _, name := range sortedKeys(c44SecretSettings) {
		c := defs.Types.Scope().Lookup(name)
		if c == nil {
			continue // reported by R-C44-2
		}

		key := "defs.RestrictedSettings|" + name
		if listed[name] {
			r.Discharge("R-C44-5", key, w.pos(lit.Pos()), "secret setting is on the list Ego code may not read")
		} else {
			r.Violate("R-C44-5", key, w.pos(lit.Pos()), "the secret setting defs."+name+" ("+c44SecretSettings[name]+") is missing from defs.RestrictedSettings: Ego code run through /admin/run or a service reads it with profile.Get and returns it")
		}
	}

	// the guard
	for _, p := range w.pkgsUnder("internal/runtime", "internal/builtins") {
		for _, fn := range w.srcFuncs(p) {
			allInstrs(fn, func(in ssa.Instruction) {
				c := callTo(in, "internal/cli/settings.Get")
				if c == nil {
					return
				}

				if _, isConst := constString(c.Args[0]); isConst {
					return
				}

				argKey := resolveLocal(c.Args[0])

				cuts := cutEdges(fn, func(f Fact) bool {
					if f.Kind != "false" {
						return false
					}

					lk, ok := f.V.(*ssa.Lookup)
					if !ok || resolveLocal(lk.Index) != argKey {
						return false
					}

					ld, ok := lk.X.(*ssa.UnOp)
					if !ok {
						return false
					}

					g, ok := ld.X.(*ssa.Global)

					return ok && g.Name() == "RestrictedSettings" && g.Pkg.Pkg.Path() == defs.PkgPath
				})

				key := fnKey(fn) + "|settings.Get(run-time key)"

				switch {
				case len(cuts) == 0:
					r.Violate("R-C44-5", key, w.pos(in.Pos()), "a setting named at run time by Ego code is read without consulting defs.RestrictedSettings for that name")
				case instrReachableAfterCut(fn, in, cuts):
					r.Violate("R-C44-5", key, w.pos(in.Pos()), "a setting named at run time by Ego code is read on a path that does not pass the false edge of RestrictedSettings[key]")
				default:
					r.Discharge("R-C44-5", key, w.pos(in.Pos()), "reachable only when RestrictedSettings[key] is false")
				}
			})
		}
	}
}

// ---------------------------------------------------------------------------
// R-C44-6 / R-C44-7

// Functions whose result is a clear-text stored secret.
var c44ClearTextSources = map[string]map[int]bool{
	"internal/dsns.decrypt": {0: true},
}

// Sinks a clear-text value may reach only under the stated condition.
var c44ClearTextOK = map[string]struct {
	reason string
	guard  []string // the sink must be dominated by a block entered only when a string equals one of these
}{
	"sql.openDatabase|internal/errors.Error.Context": {
		reason: "the text named in the error is the path of a sqlite database, and dsns.Connection writes no credentials for a sqlite provider (its decrypt call is behind the not-sqlite edge, re-checked by R-C44-7)",
		guard:  []string{"sqlite", "sqlite3"},
	},
}

var c44ErrCtors = map[string]int{ // id -> first argument index that carries text
	"internal/errors.Error.Context": 1,
	"internal/errors.New":           0,
	"internal/errors.Message":       0,
	"fmt.Errorf":                    0,
	"errors.New":                    0,
}

var c44ResponseSinks = map[string]int{
	"internal/util.ErrorResponse":   2,
	"internal/util.WriteJSON":       3,
	"net/http.ResponseWriter.Write": 1,
	"encoding/json.Encoder.Encode":  1,
}

type c44Hit struct {
	fn   *ssa.Function
	at   ssa.Instruction
	val  ssa.Value // for a returned error: the value returned
	what string
	via  string
}

type c44Summary struct {
	toRet map[int]bool
	hits  []c44Hit
}

type c44Flow struct {
	w         *World
	producers map[*ssa.Function]map[int]bool
	sums      map[*ssa.Function]map[int]*c44Summary
	busy      map[*ssa.Function]map[int]bool
}

func (cf *c44Flow) summary(f *ssa.Function, i int) *c44Summary {
	if s, ok := cf.sums[f][i]; ok {
		return s
	}

	if cf.busy[f][i] {
		return &c44Summary{toRet: map[int]bool{}}
	}

	if cf.busy[f] == nil {
		cf.busy[f] = map[int]bool{}
	}

	cf.busy[f][i] = true

	s := &c44Summary{toRet: map[int]bool{}}

	if i < len(f.Params) {
		s.toRet, s.hits = cf.analyse(f, []ssa.Value{f.Params[i]}, false)
	}

	if cf.sums[f] == nil {
		cf.sums[f] = map[int]*c44Summary{}
	}

	cf.sums[f][i] = s
	cf.busy[f][i] = false

	return s
}

func (cf *c44Flow) repoBody(c *ssa.CallCommon) *ssa.Function {
	f := calleeFunction(c)
	if f == nil || f.Blocks == nil || f.Pkg == nil || !strings.HasPrefix(f.Pkg.Pkg.Path(), modPath) {
		return nil
	}

	if _, isClosure := c.Value.(*ssa.MakeClosure); isClosure {
		return nil
	}

	return f
}

// analyse runs the forward flow from seeds in fn and returns the result indices
// that carry the taint and the sinks it reaches (here or in callees).
func (cf *c44Flow) analyse(fn *ssa.Function, seeds []ssa.Value, top bool) (map[int]bool, []c44Hit) {
	var hits []c44Hit

	seenCallee := map[string]bool{}

	opts := flowOpts{
		cleanScalars: true,
		intoClosures: true,
		outParams:    true,
		callPolicy: func(c *ssa.CallCommon, ta []bool) (bool, bool) {
			switch callID(c) {
			case "database/sql.Open":
				// the driver is meant to receive the string; what its error may
				// quote is R-C44-7's subject
				return false, true
			case "net/url.URL.Redacted":
				return false, true
			}

			f := cf.repoBody(c)
			if f == nil {
				return false, false
			}

			res := false

			for i, t := range ta {
				if !t {
					continue
				}

				s := cf.summary(f, i)
				if len(s.toRet) > 0 {
					res = true
				}

				k := fnKey(f) + "#" + sprintInt(i)
				if !seenCallee[k] {
					seenCallee[k] = true

					for _, h := range s.hits {
						h.via = fnKey(fn) + " -> " + ifEmpty(h.via, fnKey(h.fn))
						hits = append(hits, h)
					}
				}
			}

			return res, true
		},
		extractPolicy: func(e *ssa.Extract, tainted func(ssa.Value) bool) (bool, bool) {
			call, ok := e.Tuple.(*ssa.Call)
			if !ok {
				return false, false
			}

			c := call.Common()

			if callID(c) == "strings.Cut" {
				if sep, isC := constString(c.Args[1]); isC && sep == "://" && e.Index == 0 {
					return false, true // the scheme of a URL: credentials come after "://"
				}

				return false, false
			}

			if f := calleeFunction(c); f != nil {
				if idx, ok := cf.producers[f]; ok && idx[e.Index] {
					return true, true
				}
			}

			f := cf.repoBody(c)
			if f == nil {
				return false, false
			}

			for i, a := range callArgs(c) {
				if tainted(a) && cf.summary(f, i).toRet[e.Index] {
					return true, true
				}
			}

			return false, true
		},
	}

	fl := flowForward(fn, seeds, opts)

	fns := []*ssa.Function{fn}

	var addAnon func(f *ssa.Function)

	addAnon = func(f *ssa.Function) {
		for _, a := range f.AnonFuncs {
			fns = append(fns, a)
			addAnon(a)
		}
	}

	addAnon(fn)

	rets := map[int]bool{}

	for _, f := range fns {
		allInstrs(f, func(in ssa.Instruction) {
			switch x := in.(type) {
			case ssa.CallInstruction:
				c := x.Common()
				id := callID(c)
				args := callArgs(c)

				if first, ok := c44ErrCtors[id]; ok {
					for i := first; i < len(args); i++ {
						if fl.has(args[i]) {
							hits = append(hits, c44Hit{fn: f, at: in, what: "is built into an error value by " + id})

							break
						}
					}
				}

				if at, ok := c44ResponseSinks[id]; ok && at < len(args) && fl.has(args[at]) {
					hits = append(hits, c44Hit{fn: f, at: in, what: "is written to the response by " + id})
				}
			case *ssa.Return:
				if f != fn {
					return
				}

				for i, v := range retResults(x) {
					if v == nil || !fl.has(v) {
						continue
					}

					rets[i] = true

					// in a callee this is the caller's business (summary.toRet)
					if top && isErrorType(v.Type()) {
						hits = append(hits, c44Hit{fn: f, at: in, val: stripValue(v), what: "is carried by an error value this function returns"})
					}
				}
			}
		})
	}

	return rets, hits
}

func ifEmpty(s, alt string) string {
	if s == "" {
		return alt
	}

	return s
}

func c44ClearText(w *World, r *Report) {
	r.Rule("R-C44-6", "the clear-text DSN password (result of dsns.decrypt) and every value computed from it, followed across calls through per-parameter summaries, is never an argument of an error constructor, never carried by a returned error, and never written to a response", 3)
	r.Rule("R-C44-7", "a function that decrypts a stored DSN password returns a string built from it only on the success edge of url.Parse of that string; every other return reachable after the decryption hands back a constant", 1)

	cf := &c44Flow{w: w, producers: map[*ssa.Function]map[int]bool{}, sums: map[*ssa.Function]map[int]*c44Summary{}, busy: map[*ssa.Function]map[int]bool{}}

	var all []*ssa.Function

	for _, p := range w.pkgsUnder("internal", "cmd", "tools") {
		all = append(all, w.srcFuncs(p)...)
	}

	byID := map[string]*ssa.Function{}

	for _, fn := range all {
		if fn.Parent() == nil {
			if o, ok := fn.Object().(*types.Func); ok {
				byID[funcID(o)] = fn
			}
		}
	}

	for id, idx := range c44ClearTextSources {
		f := byID[id]
		if f == nil {
			r.Anchor("R-C44-6", id)

			continue
		}

		cf.producers[f] = idx
	}

	seedsOf := func(fn *ssa.Function) (seeds []ssa.Value, from []string) {
		scan := []*ssa.Function{fn}
		for i := 0; i < len(scan); i++ {
			scan = append(scan, scan[i].AnonFuncs...)

			allInstrs(scan[i], func(in ssa.Instruction) {
				call, ok := in.(*ssa.Call)
				if !ok {
					return
				}

				callee := calleeFunction(call.Common())
				if callee == nil {
					return
				}

				idx, ok := cf.producers[callee]
				if !ok {
					return
				}

				if callee.Signature.Results().Len() == 1 {
					if idx[0] {
						seeds = append(seeds, call)
						from = append(from, fnKey(callee))
					}

					return
				}

				if call.Referrers() == nil {
					return
				}

				for _, ref := range *call.Referrers() {
					if ex, ok := ref.(*ssa.Extract); ok && idx[ex.Index] {
						seeds = append(seeds, ex)
						from = append(from, fnKey(callee))
					}
				}
			})
		}

		return seeds, from
	}

	isSource := func(fn *ssa.Function) bool { return c44ClearTextSources[fnIDOf(fn)] != nil }

	// phase 1: which functions hand the clear text on to their callers
	for round := 0; round < 10; round++ {
		grew := false
		cf.sums = map[*ssa.Function]map[int]*c44Summary{}

		for _, fn := range all {
			if fn.Parent() != nil || isSource(fn) {
				continue
			}

			seeds, _ := seedsOf(fn)
			if len(seeds) == 0 {
				continue
			}

			rets, _ := cf.analyse(fn, seeds, true)
			for i := range rets {
				if cf.producers[fn] == nil {
					cf.producers[fn] = map[int]bool{}
				}

				if !cf.producers[fn][i] {
					cf.producers[fn][i] = true
					grew = true
				}
			}
		}

		if !grew {
			break
		}
	}

	// phase 2: judge every function that receives it
	cf.sums = map[*ssa.Function]map[int]*c44Summary{}

	var producerNames []string

	for f := range cf.producers {
		producerNames = append(producerNames, fnKey(f))
	}

	sort.Strings(producerNames)
	r.Unit("clear_text_producers", producerNames)

	for _, fn := range all {
		if fn.Parent() != nil || isSource(fn) {
			continue
		}

		seeds, from := seedsOf(fn)
		if len(seeds) == 0 {
			continue
		}

		_, hits := cf.analyse(fn, seeds, true)

		seedPos := seeds[0].Pos()
		if ex, ok := seeds[0].(*ssa.Extract); ok {
			seedPos = ex.Tuple.Pos()
		}

		sort.Strings(from)
		key := fnKey(fn) + "|clear text from " + strings.Join(dedupe(from), ",")

		var bad []string

		for _, h := range hits {
			at := h.at
			if call, isCall := h.val.(*ssa.Call); isCall {
				at = call // a returned error: judged where it was built
			}

			exKey := fnKey(h.fn) + "|" + callIDOf(at)
			if ex, ok := c44ClearTextOK[exKey]; ok && c44GuardedByStringEq(at.Block(), ex.guard) {
				if h.val == nil {
					r.Except("R-C44-6", exKey, w.pos(at.Pos()), ex.reason)
				}

				continue
			}

			msg := "the clear-text value " + h.what + " at " + w.pos(h.at.Pos())
			if h.via != "" {
				msg += " (call path " + h.via + ")"
			}

			bad = append(bad, msg)
		}

		if len(bad) > 0 {
			sort.Strings(bad)
			r.Violate("R-C44-6", key, w.pos(seedPos), strings.Join(dedupe(bad), "; "))
		} else {
			r.Discharge("R-C44-6", key, w.pos(seedPos), "followed through this function and its callees: no error constructor, returned error or response write receives it")
		}
	}

	// ---- R-C44-7: the composer's gate
	for id := range c44ClearTextSources {
		src := byID[id]
		if src == nil {
			continue
		}

		for _, fn := range all {
			var calls []*ssa.Call

			allInstrs(fn, func(in ssa.Instruction) {
				if call, ok := in.(*ssa.Call); ok && calleeFunction(call.Common()) == src {
					calls = append(calls, call)
				}
			})

			for n, call := range calls {
				key := fnKey(fn) + "|after " + fnKey(src)
				if n > 0 {
					key += "#" + sprintInt(n+1)
				}

				c44ParseGate(w, r, fn, call, key)
			}
		}
	}
}

func fnIDOf(fn *ssa.Function) string {
	if o, ok := fn.Object().(*types.Func); ok {
		return funcID(o)
	}

	return ""
}

func callIDOf(in ssa.Instruction) string {
	if ci, ok := in.(ssa.CallInstruction); ok {
		return callID(ci.Common())
	}

	return "return"
}

func dedupe(s []string) []string {
	var out []string

	for i, x := range s {
		if i == 0 || x != s[i-1] {
			out = append(out, x)
		}
	}

	return out
}

// c44GuardedByStringEq: b is dominated by a block every entry of which is the
// true edge of a comparison of one string value with one of the constants.
func c44GuardedByStringEq(b *ssa.BasicBlock, consts []string) bool {
	if len(consts) == 0 {
		return true
	}

	for d := b; d != nil; d = d.Idom() {
		if len(d.Preds) == 0 {
			continue
		}

		ok := true

		for _, p := range d.Preds {
			ifi, isIf := p.Instrs[len(p.Instrs)-1].(*ssa.If)
			if !isIf || p.Succs[0] != d {
				ok = false

				break
			}

			bo, isBin := ifi.Cond.(*ssa.BinOp)
			if !isBin || bo.Op != token.EQL {
				ok = false

				break
			}

			s, isC := constString(bo.Y)
			if !isC {
				s, isC = constString(bo.X)
			}

			if !isC || !inStrings(consts, s) {
				ok = false

				break
			}
		}

		if ok {
			return true
		}
	}

	return false
}

func inStrings(list []string, s string) bool {
	for _, x := range list {
		if x == s {
			return true
		}
	}

	return false
}

// c44ParseGate: R-C44-7 for one decrypt call.
func c44ParseGate(w *World, r *Report, fn *ssa.Function, src *ssa.Call, key string) {
	// what is known at the call: the edges that dominate it
	type known struct {
		v    ssa.Value
		kind string
	}

	var facts []known

	inLoop := map[*ssa.BasicBlock]bool{}

	for _, l := range naturalLoops(fn) {
		for b := range l.body {
			inLoop[b] = true
		}
	}

	for d := src.Block(); d != nil && d.Idom() != nil; d = d.Idom() {
		p := d.Idom()
		if len(d.Preds) != 1 || d.Preds[0] != p {
			continue
		}

		ifi, ok := p.Instrs[len(p.Instrs)-1].(*ssa.If)
		if !ok {
			continue
		}

		for _, f := range edgeFacts(ifi.Cond, p.Succs[0] == d) {
			if (f.Kind == "true" || f.Kind == "false") && f.V != nil {
				if in, isInstr := f.V.(ssa.Instruction); isInstr && inLoop[in.Block()] {
					continue
				}

				facts = append(facts, known{f.V, f.Kind})
			}
		}
	}

	parseCalls := 0

	cuts := cutEdges(fn, func(f Fact) bool {
		// the success edge of url.Parse
		if f.Kind == "nil" {
			if call, idx := resultOf(f.V); call != nil && idx == 1 && callID(call.Common()) == "net/url.Parse" {
				return true
			}
		}

		// an edge that contradicts what held when the password was decrypted
		for _, k := range facts {
			if f.V == k.v && ((f.Kind == "true" && k.kind == "false") || (f.Kind == "false" && k.kind == "true")) {
				return true
			}
		}

		return false
	})

	allInstrs(fn, func(in ssa.Instruction) {
		if callTo(in, "net/url.Parse") != nil {
			parseCalls++
		}
	})

	bad := pathAvoiding(src, cuts, func(ssa.Instruction) bool { return false }, func(in ssa.Instruction) bool {
		ret, ok := in.(*ssa.Return)
		if !ok {
			return false
		}

		for _, v := range retResults(ret) {
			if v == nil || !types.Identical(v.Type().Underlying(), types.Typ[types.String]) {
				continue
			}

			if _, isConst := v.(*ssa.Const); !isConst {
				return true
			}
		}

		return false
	})

	switch {
	case bad != nil && parseCalls == 0:
		r.Violate("R-C44-7", key, w.pos(src.Pos()), "the string composed from the decrypted password is returned at "+w.pos(bad.Pos())+" without being parsed first: if the URL parser of the database driver rejects it, the driver's error quotes it, password included, and the table handlers send that error to the client")
	case bad != nil:
		r.Violate("R-C44-7", key, w.pos(src.Pos()), "a string composed after the decryption is returned at "+w.pos(bad.Pos())+" on a path that does not pass the success edge of url.Parse")
	default:
		r.Discharge("R-C44-7", key, w.pos(src.Pos()), "every return reachable after the decryption hands back a constant or passes the success edge of url.Parse ("+sprintInt(len(facts))+" dominating branch facts used)")
	}
}
