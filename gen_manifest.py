#!/usr/bin/env python3
"""Regenerates MANIFEST.json from checks.json (claimed checks) and na.json (not applicable)."""
import json, os
here = os.path.dirname(os.path.abspath(__file__))
checks = json.load(open(os.path.join(here, "checks.json")))
na = json.load(open(os.path.join(here, "na.json")))
# every property is either claimed or listed: a property whose planned check is not built yet is listed as unclaimed
allids = [json.loads(l)["id"] for l in open(os.path.join(here, "properties.jsonl")) if l.strip()]
have = {c["id"] for c in checks} | {n["property_id"] for n in na}
na = na + [{"property_id": i, "reason": "not claimed: the structural rule planned in DESIGN.md §3 is not built yet, so nothing is decided for this property by the current machinery"} for i in allids if i not in have]
m = {
 "version": 1,
 "setup_cmd": "./setup.sh",
 "hooks": {
  "guard": "verif",
  "enable": "none needed: static analysis reads the source; no instrumentation is compiled into tucats/ego",
  "baseline_off_cmd": "cd /repo && go test -vet=off -count=1 ./internal/util/javascript/ ./tools/langlint/",
  "source_commits": [],
  "add_only": True
 },
 "engines": [{
  "name": "egocheck", "path": "checker/",
  "serves_properties": [c["id"] for c in checks],
  "kind_free_text": "repository-specific static analyser (go/packages + go/types + go/ssa, x/tools v0.50.0, Go 1.26.8): one rule set per property, obligations keyed by rule|function|construct"
 }],
 "checks": [],
 "not_applicable": na,
 "notes": "Static analysis only. Every check snapshots /repo's working tree (rsync, no .git) under /var/tmp, runs the two offline go generate steps the tree needs to type-check, loads the resolved program and evaluates the property's rules; the snapshot is removed on exit. known_findings.json lists open findings by obligation key; fixed: entries suppress nothing."
}
for c in checks:
    m["checks"].append({
        "property_id": c["id"],
        "quick_cmd": "./run.sh %s quick" % c["id"],
        "thorough_cmd": "./run.sh %s thorough" % c["id"],
        "evidence_file": "evidence/%s.json" % c["id"],
        "replay_cmd_template": "./run.sh %s quick -v  # re-evaluates the rules; the violated obligations are listed in {path}" % c["id"],
        "engine": "egocheck",
        "level_claimed": {"category": c.get("level", "other"), "text": c["text"], "design_ref": "DESIGN.md §3 " + c["id"]},
        "level_note": c["note"],
        "technique": c["technique"],
    })
json.dump(m, open(os.path.join(here, "MANIFEST.json"), "w"), indent=1)
print("checks:", len(checks), "not_applicable:", len(na))
