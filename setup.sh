#!/bin/bash
# Builds the checker from files on disk only (offline).
set -eu
here="$(cd "$(dirname "$0")" && pwd)"
export PATH=/opt/veriftools/go1.26.8/bin:$PATH
export GOFLAGS=-mod=mod GOPROXY=off GOSUMDB=off GOTOOLCHAIN=local CGO_ENABLED=0
unset GOWORK
mkdir -p "$here/bin" "$here/evidence/replay"
cd "$here/checker" && go build -o "$here/bin/egocheck" .
echo "built $here/bin/egocheck"
