#!/bin/bash
# usage: run.sh <property id> [quick|thorough] [extra egocheck flags]
# Rebuilds nothing of the checker (see setup.sh); analyses /repo's current
# working tree on every call (snapshot + go generate + load).
set -u
here="$(cd "$(dirname "$0")" && pwd)"
export PATH=/opt/veriftools/go1.26.8/bin:$PATH
export GOFLAGS=-mod=mod GOPROXY=off GOSUMDB=off GOTOOLCHAIN=local CGO_ENABLED=0
unset GOWORK
id="$1"; tier="${2:-${VERIF_TIER:-quick}}"; shift; [ $# -gt 0 ] && shift
if [ ! -x "$here/bin/egocheck" ] || [ -n "$(find "$here/checker" -newer "$here/bin/egocheck" -name '*.go' -print -quit)" ]; then
  "$here/setup.sh" >&2 || { echo "VIOLATION property=$id replay=none (checker does not build)"; exit 1; }
fi
exec "$here/bin/egocheck" -p "$id" -tier "$tier" -out "$here" "$@"
