#!/usr/bin/env python3
"""Writes the per-property 'as built' tables of DESIGN.md §11 from checks.json, the evidence files, known_findings.json and seeded/*/meta.json."""
import json,glob,os,re
os.chdir('/verif')
checks={c['id']:c for c in json.load(open('checks.json'))}
kf=json.load(open('known_findings.json'))
fixed={}
for f in kf['fixed']:
    m=re.match(r'fixed: property=(C\d+) (.*)',f)
    fixed.setdefault(m.group(1),[]).append(m.group(2))
seeds={}
for mp in sorted(glob.glob('seeded/*/meta.json')):
    m=json.load(open(mp)); seeds.setdefault(m['property'],[]).append((os.path.basename(os.path.dirname(mp)),m))
out=[]
for pid in sorted(checks):
    ev=json.load(open(f'evidence/{pid}.json'))
    cov=ev['coverage']
    out.append(f"#### {pid}\n\n")
    out.append("| rule | instances | requires |\n|---|---|---|\n")
    for r in cov['rules']:
        if r['id']=='selftest': continue
        out.append(f"| {r['id']} | {r['instances']} | {r['text']} |\n")
    n=cov['obligations']
    out.append(f"\nCurrent tree: {n} obligations — {cov['discharged']} discharged, {cov['excepted']} excepted by name (reason in the checker source and in the evidence file), {cov['info']} info, 0 violated.\n")
    if pid in fixed:
        out.append("\nGenuine defects found by the first run and repaired (`fix:` commits in /repo; the check fires on the commit before each):\n\n")
        for f in fixed[pid]: out.append(f"* {f}\n")
    if pid in seeds:
        out.append("\nSeeded changes (each confirmed by us: builds, pinned suite passes, demonstration fails with the change and passes without):\n\n")
        for n_,m in seeds[pid]:
            caught = not m['detected_by'].startswith('not detected') and m['detected_by']!='pending'
            out.append(f"* `{n_}` — manifests with: {m['needs_to_manifest']}. **{'Caught' if caught else 'Not caught'}** — {m['detected_by']}\n")
    out.append("\n")
open('/tmp/design_built.md','w').write(''.join(out))
print(len(''.join(out).split('\n')),'lines')
