#!/usr/bin/env python3
"""Regenerates the generated blocks of DESIGN.md §11 (summary of findings and seeds; per-property rule tables)
from checks.json, the evidence files, known_findings.json, seeded/*/meta.json and /repo's git log."""
import json,glob,os,re,subprocess
os.chdir('/verif')
checks={c['id']:c for c in json.load(open('checks.json'))}
kf=json.load(open('known_findings.json'))
fixed={}
for f in kf['fixed']:
    m=re.match(r'fixed: property=(C\d+) (.*)',f)
    fixed.setdefault(m.group(1),[]).append(m.group(2))
seeds={}
allseeds=[]
for mp in sorted(glob.glob('seeded/*/meta.json')):
    m=json.load(open(mp)); n=os.path.basename(os.path.dirname(mp))
    seeds.setdefault(m['property'],[]).append((n,m)); allseeds.append((n,m))
nfix=int(subprocess.run("git -C /repo log --oneline | grep -c ' fix:'",shell=True,capture_output=True,text=True).stdout.strip() or 0)
caught=[n for n,m in allseeds if not m['detected_by'].startswith('not detect')]
added=[n for n,m in allseeds if 'added for this seed' in m['detected_by']]
missed=[(n,m) for n,m in allseeds if m['detected_by'].startswith('not detect')]
summ=[]
summ.append(f"* `fix:` commits in /repo: **{nfix}**; entries in `known_findings.json`: {len(kf['fixed'])} fixed, {len(kf.get('open',[]))} open.\n")
summ.append(f"* Seeded changes kept: **{len(allseeds)}**; caught: **{len(caught)}** ({len(caught)-len(added)} by rules built from the design, {len(added)} after a rule was added because the seed was missed); recorded as not detected: **{len(missed)}**.\n")
summ.append("* Rules added because a seed was missed: "+", ".join(f"`{n}` ({re.search(r'R-C[0-9]+-[0-9]+',m['detected_by']).group(0)})" for n,m in allseeds if n in added)+".\n")
summ.append("* Not detected (value-level, with the reason recorded in `meta.json`): "+"; ".join(f"`{n}`" for n,m in missed)+".\n")
per=[]
for pid in sorted(checks):
    ev=json.load(open(f'evidence/{pid}.json'))
    cov=ev['coverage']
    per.append(f"#### {pid}\n\n")
    per.append("| rule | instances | requires |\n|---|---|---|\n")
    for r in cov['rules']:
        if r['id']=='selftest': continue
        per.append(f"| {r['id']} | {r['instances']} | {r['text']} |\n")
    per.append(f"\nCurrent tree: {cov['obligations']} obligations — {cov['discharged']} discharged, {cov['excepted']} excepted by name (reason in the checker source and in the evidence file), {cov['info']} info, 0 violated.\n")
    if pid in fixed:
        per.append("\nGenuine defects found and repaired (`fix:` commits in /repo; the check fires on the commit before each):\n\n")
        for f in fixed[pid]: per.append(f"* {f}\n")
    if pid in seeds:
        per.append("\nSeeded changes (each confirmed by us):\n\n")
        for n_,m in seeds[pid]:
            ok = not m['detected_by'].startswith('not detect')
            per.append(f"* `{n_}` — manifests with: {m['needs_to_manifest']}. **{'Caught' if ok else 'Not caught'}** — {m['detected_by']}\n")
    per.append("\n")
s=open('DESIGN.md').read()
def splice(s,name,body):
    a=f'<!-- GENERATED:{name} (tools/gen_design_results.py) -->\n'; b=f'<!-- /GENERATED:{name} -->'
    i=s.index(a)+len(a); j=s.index(b)
    return s[:i]+body+s[j:]
s=splice(s,'summary',''.join(summ))
s=splice(s,'per-property',''.join(per))
open('DESIGN.md','w').write(s)
print('DESIGN.md regenerated:',nfix,'fixes,',len(allseeds),'seeds,',len(caught),'caught')
