#!/bin/bash
# usage: confirm_seed.sh <patch.diff> <demo file> <dest dir in tree> <go test args...>
# Confirms a seeded change on a scratch copy of /repo's current working tree:
#  1. pinned suite + build with patch   2. demo FAILS with patch   3. demo PASSES without patch
patch=$1; demo=$2; dest=$3; shift 3
export PATH=/opt/veriftools/go1.26.8/bin:$PATH GOFLAGS=-mod=mod GOPROXY=off GOSUMDB=off GOTOOLCHAIN=local; unset GOWORK
S=$(mktemp -d /var/tmp/cs-XXXX); trap "rm -rf $S" EXIT
rsync -a --exclude .git /repo/ $S/ && cd $S && go generate ./internal/i18n/ ./internal/cli/app/ >/dev/null || exit 2
cp "$demo" $S/$dest/
echo "== without patch: demo"; go test -vet=off -count=1 "$@" 2>&1 | tail -4; r0=${PIPESTATUS[0]}
patch -p1 -s < "$patch" || { echo "PATCH DOES NOT APPLY"; exit 2; }
go generate ./internal/i18n/ ./internal/cli/app/ >/dev/null || exit 2
echo "== with patch: build"; go build ./... ; rb=$?
echo "== with patch: demo"; go test -vet=off -count=1 "$@" 2>&1 | tail -6; r1=${PIPESTATUS[0]}
rm $S/$dest/$(basename "$demo")
echo "== with patch: pinned suite"; go test -vet=off -count=1 ./internal/util/javascript/ ./tools/langlint/ 2>&1 | tail -3; rp=${PIPESTATUS[0]}
echo "RESULT without=$r0 (want 0) build=$rb (want 0) with=$r1 (want !=0) pinned=$rp (want 0)"
