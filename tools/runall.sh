#!/bin/bash
# runs every registered quick check in parallel (4 at a time); prints failures
cd /verif
ids=$(python3 -c "import json; print(' '.join(c['id'] for c in json.load(open('checks.json'))))")
fail=0
run() { out=$(./run.sh $1 quick 2>&1); rc=$?; echo "$1 rc=$rc $(echo "$out" | grep -m1 '^egocheck')"; [ $rc -ne 0 ] && echo "$out" | grep -E '^(violation|VIOLATION)' | head -5; return $rc; }
export -f run
echo $ids | tr ' ' '\n' | xargs -P 4 -I{} bash -c 'run {}' | sort
