#!/bin/bash
# runs every registered thorough check, two at a time (each replays its variants four at a time)
cd /verif
python3 -c "
import json
for c in json.load(open('checks.json')): print(c['id'])" | xargs -P 2 -I{} sh -c './run.sh {} thorough > /tmp/thorough-{}.log 2>&1; echo "{} rc=$? $(grep -c "^violation" /tmp/thorough-{}.log) violations; $(head -1 /tmp/thorough-{}.log | cut -c1-110)"'
