#!/bin/bash
# usage: keep_seed.sh <seed-name> <property> <out-dir> "<needs>" "<ran>" "<detected-by>"
name=$1; prop=$2; out=$3; needs=$4; ran=$5; det=$6
d=/verif/seeded/$name; mkdir -p $d; cp -r $out/* $d/
python3 - "$d" "$prop" "$needs" "$ran" "$det" <<'PY'
import json,sys
d,prop,needs,ran,det=sys.argv[1:6]
json.dump({"property":prop,"breaks":prop,"needs_to_manifest":needs,"confirmed_by":ran,"detected_by":det},open(d+"/meta.json","w"),indent=1)
PY
