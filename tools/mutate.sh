#!/bin/bash
# usage: mutate.sh <prop> <file-rel> <perl-expr>   -- applies a perl -0pi edit to a scratch copy and runs the check
prop=$1; f=$2; expr=$3
S=$(mktemp -d /var/tmp/mu-XXXX); trap "rm -rf $S" EXIT
rsync -a --exclude .git /repo/ $S/
before=$(md5sum $S/$f | cut -d' ' -f1)
perl -0pi -e "$expr" $S/$f
after=$(md5sum $S/$f | cut -d' ' -f1)
[ "$before" = "$after" ] && { echo "MUTATION DID NOT APPLY"; exit 2; }
(cd $S && export PATH=/opt/veriftools/go1.26.8/bin:$PATH GOFLAGS=-mod=mod GOPROXY=off GOSUMDB=off GOTOOLCHAIN=local && go generate ./internal/i18n/ ./internal/cli/app/ >/dev/null 2>&1 && go build ./... 2>&1 | head -5)
/verif/run.sh $prop quick -repo $S -no-evidence | grep -E "^(egocheck|violation)" | cut -c1-330
