#!/bin/bash
# usage: withpatch.sh <patch.diff|commit:REV> <prop> [prop...]
# Runs checks against a scratch copy of /repo with the patch applied (or at the given commit). Never touches /repo; writes no evidence.
src=$1; shift
S=$(mktemp -d /var/tmp/wp-XXXX); trap "rm -rf $S" EXIT
if [[ "$src" == commit:* ]]; then
  git -C /repo archive "${src#commit:}" | tar -x -C $S
else
  rsync -a --exclude .git /repo/ $S/ && (cd $S && patch -p1 -s < "$src") || { echo "patch failed"; exit 2; }
fi
rc=0
for p in "$@"; do
  /verif/run.sh $p quick -repo $S -no-evidence | grep -E "^(egocheck|violation|VIOLATION|KNOWN)" | cut -c1-400 || true
done
