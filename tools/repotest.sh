#!/bin/bash
# usage: repotest.sh [-r repo] <go test args...>   e.g. repotest.sh ./internal/sqlparse/...
# Copies the working tree to a scratch dir, generates, builds everything, runs go test with the given args, removes the copy.
repo=/repo; if [ "$1" = "-r" ]; then repo=$2; shift 2; fi
export PATH=/opt/veriftools/go1.26.8/bin:$PATH GOFLAGS=-mod=mod GOPROXY=off GOSUMDB=off GOTOOLCHAIN=local; unset GOWORK
S=$(mktemp -d /var/tmp/repotest-XXXX); trap "rm -rf $S" EXIT
rsync -a --exclude .git $repo/ $S/ && cd $S && go generate ./internal/i18n/ ./internal/cli/app/ >/dev/null || exit 2
go build ./... || exit 3
[ $# -gt 0 ] && go test -vet=off -count=1 "$@"
